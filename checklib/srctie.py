#!/usr/bin/env python3
"""Source tie: the loop-free target functions of unic-locale, translated from the Rust source text
into Lean (`srclean`), are proved equal to the hand-written model definitions.

    run(repo, root) -> {"translator_built": bool,
                        "functions": {name: {"status": "proved"|"unproved"|"untranslated",
                                             "reason": str, "rust": str, "sha": str}},
                        "log": str}

Steps: (1) build `srclean/` offline; (2) run it on `repo`, write `lean/UnicLocale/Gen/Src*.lean`
when the text changed; (3) `lake build UnicLocale.SrcTie.<Group>` per group, and when a group does
not build, `lake build UnicLocale.SrcTie.<Function>` per function (there is one small proof module
per function); (4) an audit file, generated here, checks for every function whose module built
that the theorem really states `UL.Src.<f> = <model definition>` and that it rests on no axiom
besides `propext`, `Classical.choice`, `Quot.sound`.

Standard library only.  `python3 checklib/srctie.py <repo> <root>` prints the dictionary as JSON.
"""
import json
import os
import re
import subprocess
import sys

GEN_MODULES = ["Src", "SrcMatch", "SrcExtType", "SrcLikely", "SrcParse", "SrcSerde", "SrcMacros"]
ALLOWED_AXIOMS = {"propext", "Classical.choice", "Quot.sound"}
FORBIDDEN = ["sorry", "admit", "axiom", "native_decide", "bv_decide", "implemented_by", "unsafe",
             "maxHeartbeats 0"]
STRETCH_GROUPS = {"Likely"}
BUILD_TIMEOUT = 900


def tie_module(lean_name):
    """`Language.fromBytes` -> `LanguageFromBytes` (module `UnicLocale.SrcTie.LanguageFromBytes`)."""
    return "".join(p[0].upper() + p[1:] for p in lean_name.split("."))


def _run(cmd, cwd, env=None, timeout=BUILD_TIMEOUT):
    try:
        p = subprocess.run(cmd, cwd=cwd, env=env, stdout=subprocess.PIPE, stderr=subprocess.PIPE,
                           timeout=timeout, universal_newlines=True)
        return p.returncode, p.stdout, p.stderr
    except subprocess.TimeoutExpired as e:
        return 124, (e.stdout or ""), (e.stderr or "") + "\n[timeout after %ds]" % timeout
    except OSError as e:
        return 127, "", str(e)


def build_translator(root, log):
    crate = os.path.join(root, "srclean")
    target = os.path.join(root, ".build", "cargo-srclean")
    env = dict(os.environ)
    env["CARGO_NET_OFFLINE"] = "true"
    env["CARGO_TARGET_DIR"] = target
    rc, out, err = _run(["cargo", "build", "--release", "--offline"], crate, env)
    log.append("$ cargo build --release --offline (srclean) -> %d\n%s" % (rc, (out + err)[-4000:]))
    exe = os.path.join(target, "release", "srclean")
    return rc == 0 and os.path.exists(exe), exe


def run_translator(exe, repo, root, log):
    """Returns (report dict or None, {module: text})."""
    tmp = os.path.join(root, ".build", "srclean-out")
    os.makedirs(tmp, exist_ok=True)
    for m in GEN_MODULES:
        try:
            os.remove(os.path.join(tmp, m + ".lean"))
        except OSError:
            pass
    rc, out, err = _run([exe, repo, "--out-dir", tmp], root, timeout=120)
    log.append("$ srclean %s -> %d" % (repo, rc))
    if rc != 0:
        log.append(err[-4000:])
        return None, {}
    try:
        report = json.loads(err.strip().splitlines()[-1])
    except (ValueError, IndexError) as e:
        log.append("cannot parse the translator's report: %s\n%s" % (e, err[-2000:]))
        return None, {}
    texts = {}
    for m in GEN_MODULES:
        p = os.path.join(tmp, m + ".lean")
        try:
            with open(p, encoding="utf-8") as f:
                texts[m] = f.read()
        except OSError as e:
            log.append("missing generated module %s: %s" % (m, e))
            return None, {}
    if texts.get("Src") != out:
        log.append("stdout of srclean differs from the Src module it wrote")
        return None, {}
    return report, texts


def write_if_changed(path, text):
    try:
        with open(path, encoding="utf-8") as f:
            if f.read() == text:
                return False
    except OSError:
        pass
    os.makedirs(os.path.dirname(path), exist_ok=True)
    with open(path, "w", encoding="utf-8") as f:
        f.write(text)
    return True


def lake_build(lean_dir, modules, log):
    rc, out, err = _run(["lake", "build"] + modules, lean_dir)
    text = out + err
    log.append("$ lake build %s -> %d" % (" ".join(modules), rc))
    if rc != 0:
        log.append(text[-6000:])
    return rc == 0, text


def forbidden_in(path):
    try:
        with open(path, encoding="utf-8") as f:
            text = f.read()
    except OSError as e:
        return "cannot read %s: %s" % (path, e)
    # comments do not count
    text = re.sub(r"/-.*?-/", "", text, flags=re.S)
    text = re.sub(r"--[^\n]*", "", text)
    for w in FORBIDDEN:
        if re.search(r"(?<![A-Za-z0-9_.])" + re.escape(w) + r"(?![A-Za-z0-9_])", text):
            return "forbidden token `%s` in %s" % (w, os.path.basename(path))
    return None


def audit(lean_dir, root, names, functions, log):
    """For each name: the theorem has the expected statement, and only the standard axioms.
    Returns {name: reason-or-None}."""
    result = {}
    if not names:
        return result
    lines = []
    imports = ["import UnicLocale.SrcTie.%s" % tie_module(n) for n in names]
    lines.extend(imports)
    lines.append("")
    span = {}  # name -> (first line, last line), 1-based
    for n in names:
        info = functions[n]
        ar = int(info.get("arity", 1))
        args = " ".join("a%d" % i for i in range(ar))
        start = len(lines) + 1
        lines.append("example : UL.Src.%s = %s := by" % (n, info["model"]))
        lines.append("  funext %s" % args)
        lines.append("  exact UL.SrcTie.%s_eq %s" % (n, args))
        lines.append("#print axioms UL.SrcTie.%s_eq" % n)
        span[n] = (start, len(lines))
    path = os.path.join(root, ".build", "srctie_audit.lean")
    with open(path, "w", encoding="utf-8") as f:
        f.write("\n".join(lines) + "\n")
    rc, out, err = _run(["lake", "env", "lean", path], lean_dir)
    text = out + err
    log.append("$ lake env lean .build/srctie_audit.lean -> %d" % rc)
    if rc != 0:
        log.append(text[-4000:])
    errors = {}
    for m in re.finditer(r"srctie_audit\.lean:(\d+):\d+: error: ([^\n]*)", text):
        ln = int(m.group(1))
        for n, (a, b) in span.items():
            if a <= ln <= b:
                errors.setdefault(n, m.group(2))
    axioms = {}
    for m in re.finditer(r"'UL\.SrcTie\.([A-Za-z0-9_.]+)_eq' (depends on axioms: \[([^\]]*)\]|does not depend on any axioms)", text):
        axioms[m.group(1)] = set(x.strip() for x in (m.group(3) or "").replace("\n", " ").split(",") if x.strip())
    for n in names:
        if n in errors:
            result[n] = "audit: the theorem does not state UL.Src.%s = %s (%s)" % (n, functions[n]["model"], errors[n])
        elif n not in axioms:
            result[n] = "audit: no axiom report for the theorem"
        elif not axioms[n] <= ALLOWED_AXIOMS:
            result[n] = "audit: depends on axioms %s" % sorted(axioms[n] - ALLOWED_AXIOMS)
        else:
            result[n] = None
    return result


def run(repo, root):
    repo = os.path.abspath(repo)
    root = os.path.abspath(root)
    lean_dir = os.path.join(root, "lean")
    log = []
    res = {"translator_built": False, "functions": {}, "log": ""}

    built, exe = build_translator(root, log)
    res["translator_built"] = built
    if not built:
        res["log"] = "\n".join(log)
        return res

    report, texts = run_translator(exe, repo, root, log)
    if report is None:
        res["log"] = "\n".join(log)
        return res
    for m, text in texts.items():
        changed = write_if_changed(os.path.join(lean_dir, "UnicLocale", "Gen", m + ".lean"), text)
        log.append("Gen/%s.lean %s" % (m, "rewritten" if changed else "unchanged"))

    funcs = report["functions"]
    out = {}
    groups = {}
    for name, info in funcs.items():
        groups.setdefault(info.get("group", "Other"), []).append(name)
        out[name] = {"status": "untranslated" if info["status"] != "ok" else "unproved",
                     "reason": info.get("reason", ""), "rust": info.get("rust", ""), "sha": info.get("sha", ""),
                     "group": info.get("group", "")}

    # the generated modules themselves must compile
    ok_gen, text = lake_build(lean_dir, ["UnicLocale.Gen." + m for m in GEN_MODULES], log)
    if not ok_gen:
        for name in out:
            if out[name]["status"] == "unproved":
                out[name]["reason"] = "a generated module does not compile (translator defect): " + text[-600:]
        res["functions"] = out
        res["log"] = "\n".join(log)
        return res

    built_ok = []
    for g, names in groups.items():
        translated = [n for n in names if funcs[n]["status"] == "ok"]
        whole = len(translated) == len(names)
        group_ok = False
        if whole:
            group_ok, _ = lake_build(lean_dir, ["UnicLocale.SrcTie." + g], log)
        for n in translated:
            if group_ok:
                ok_n, text = True, ""
            else:
                ok_n, text = lake_build(lean_dir, ["UnicLocale.SrcTie." + tie_module(n)], log)
            if ok_n:
                built_ok.append(n)
            else:
                errs = re.findall(r"error: [^\n]*", text)
                out[n]["reason"] = "the theorem UL.SrcTie.%s_eq does not build: %s" % (
                    n, "; ".join(errs[:3]) if errs else text[-300:])

    # text-level hygiene and the statement/axiom audit
    tie_dir = os.path.join(lean_dir, "UnicLocale", "SrcTie")
    tactic_bad = forbidden_in(os.path.join(tie_dir, "Tactic.lean")) or forbidden_in(os.path.join(tie_dir, "ParseLemmas.lean")) or forbidden_in(os.path.join(tie_dir, "FmtLemmas.lean")) or forbidden_in(os.path.join(tie_dir, "OpsLemmas.lean")) or forbidden_in(os.path.join(tie_dir, "LikelyLemmas.lean")) or forbidden_in(os.path.join(tie_dir, "MacrosLemmas.lean"))
    checked = []
    for n in built_ok:
        bad = tactic_bad or forbidden_in(os.path.join(tie_dir, tie_module(n) + ".lean"))
        if bad:
            out[n]["reason"] = bad
        else:
            checked.append(n)
    for n, why in audit(lean_dir, root, checked, funcs, log).items():
        if why is None:
            out[n]["status"] = "proved"
            out[n]["reason"] = ""
        else:
            out[n]["reason"] = why

    # a translation that uses the `pack` / `unpack` contract at a `.into()` / `from_raw_unchecked(..)` call site (itself or through
    # a callee) rests on the conversion's own theorem (group Raw): without it the tie of that function is not counted
    for n, info in funcs.items():
        if out[n]["status"] != "proved":
            continue
        lost = [c for c in info.get("contracts", []) if out.get(c, {}).get("status") != "proved"]
        if lost:
            out[n]["status"] = "unproved"
            out[n]["reason"] = "rests on the conversion(s) %s whose own source tie is %s" % (
                ", ".join(lost), ", ".join(out.get(c, {}).get("status", "missing") for c in lost))
        out[n]["contracts"] = info.get("contracts", [])

    res["functions"] = out
    res["log"] = "\n".join(log)
    return res


if __name__ == "__main__":
    if len(sys.argv) != 3:
        sys.stderr.write("usage: srctie.py <repo> <root>\n")
        sys.exit(2)
    r = run(sys.argv[1], sys.argv[2])
    print(json.dumps(r, indent=2, ensure_ascii=False))
    # the stretch group may be untranslated
    bad = [n for n, f in r["functions"].items()
           if f["status"] != "proved" and not (f.get("group") in STRETCH_GROUPS and f["status"] == "untranslated")]
    sys.exit(0 if r["translator_built"] and r["functions"] and not bad else 1)
