#!/bin/bash
# development helper: every registered check of one tier on the unchanged tree, with timing
tier=${1:-quick}
cd "$(dirname "$0")/.."
for p in C01 C02 C03 C04 C05 C06 C07 C08 C09 C10 C11 C12 C13 C14 C15 C16 C17 C18 C19 C20; do
  s=$(date +%s)
  out=$(./check $p --tier $tier 2>/tmp/runall.$p.err)
  rc=$?
  e=$(date +%s)
  echo "$p rc=$rc t=$((e-s)) $(echo "$out" | grep -c VIOLATION) $(tail -1 /tmp/runall.$p.err)"
done
