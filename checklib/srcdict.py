#!/usr/bin/env python3
"""Literals of the library sources as a dictionary for the generator streams.

The correspondence streams are built from boundary-class alphabets; an input that the code singles out by a literal
(`if v == b"qaa"`, `key == 0x6e65`, a buffer of 64 bytes) is in none of them unless the literal itself is fed back into the
generators, as a fuzzer's dictionary is.  This module lexes the Rust sources of /repo's crates (data tables and generator
binaries excluded: those are translated, not sampled), collects string / byte-string / char / byte / integer literals and
returns the ones that are NOT in the committed baseline (`gen/srcdict_baseline.json`, harvested from the tree the models
were written against).  On the unchanged tree the dictionary is therefore empty and the streams are what they always were;
after an edit that introduces a literal the streams contain it in every position their alphabets occupy.

    python3 checklib/srcdict.py [repo]                   print the current dictionary
    python3 checklib/srcdict.py --write-baseline [repo]  (development) rewrite the baseline from the given tree
"""
import glob, json, os, re, sys

ROOT = os.path.dirname(os.path.dirname(os.path.abspath(__file__)))
BASELINE = os.path.join(ROOT, "gen", "srcdict_baseline.json")
MAX_TOKENS = 10
MAX_INTS = 4

ESC = {"n": 10, "r": 13, "t": 9, "\\": 92, "0": 0, "'": 39, '"': 34}


def source_files(repo):
    out = []
    for p in sorted(glob.glob(os.path.join(repo, "unic-*", "src", "**", "*.rs"), recursive=True)):
        rel = os.path.relpath(p, repo)
        if rel.endswith("likelysubtags/tables.rs") or rel.endswith("layout_table.rs") or "/bin/" in rel:
            continue
        out.append(p)
    return out


def unescape(body, is_bytes):
    """bytes of a (byte) string / char literal body"""
    out = bytearray()
    i = 0
    while i < len(body):
        c = body[i]
        if c != "\\":
            out += c.encode("utf-8")
            i += 1
            continue
        i += 1
        if i >= len(body):
            break
        e = body[i]
        if e == "x" and i + 2 < len(body) + 1:
            try:
                out.append(int(body[i + 1:i + 3], 16))
            except ValueError:
                pass
            i += 3
        elif e == "u":
            m = re.match(r"u\{([0-9a-fA-F_]+)\}", body[i:])
            if m:
                try:
                    out += chr(int(m.group(1).replace("_", ""), 16)).encode("utf-8")
                except (ValueError, OverflowError):
                    pass
                i += m.end()
            else:
                i += 1
        elif e == "\n":
            # line continuation: skip the following white space
            i += 1
            while i < len(body) and body[i] in " \t\n\r":
                i += 1
        else:
            out.append(ESC.get(e, ord(e) & 0xff))
            i += 1
    return bytes(out)


def lex(text):
    """yields ('str', bytes) | ('chr', bytes) | ('int', n) for the literals outside comments"""
    i, n = 0, len(text)
    while i < n:
        c = text[i]
        if text.startswith("//", i):
            j = text.find("\n", i)
            i = n if j < 0 else j
            continue
        if text.startswith("/*", i):
            depth, i = 1, i + 2
            while i < n and depth:
                if text.startswith("/*", i):
                    depth += 1
                    i += 2
                elif text.startswith("*/", i):
                    depth -= 1
                    i += 2
                else:
                    i += 1
            continue
        m = re.compile(r'b?r(#*)"').match(text, i)
        if m and (i == 0 or not (text[i - 1].isalnum() or text[i - 1] == "_")):
            close = '"' + m.group(1)
            j = text.find(close, m.end())
            if j < 0:
                return
            yield ("str", text[m.end():j].encode("utf-8"))
            i = j + len(close)
            continue
        if c == '"' or (c == "b" and text.startswith('b"', i) and (i == 0 or not (text[i - 1].isalnum() or text[i - 1] == "_"))):
            j = i + (2 if c == "b" else 1)
            k = j
            while k < n and text[k] != '"':
                k += 2 if text[k] == "\\" else 1
            yield ("str", unescape(text[j:k], c == "b"))
            i = k + 1
            continue
        if c == "'" or (c == "b" and text.startswith("b'", i) and (i == 0 or not (text[i - 1].isalnum() or text[i - 1] == "_"))):
            j = i + (2 if c == "b" else 1)
            m = re.compile(r"(\\x[0-9a-fA-F]{2}|\\u\{[0-9a-fA-F_]+\}|\\.|[^\\'\n])'").match(text, j)
            if m:
                yield ("chr", unescape(m.group(1), c == "b"))
                i = m.end()
            else:
                i = j   # a lifetime
            continue
        if c.isdigit() and (i == 0 or not (text[i - 1].isalnum() or text[i - 1] == "_")):
            m = re.compile(r"0x[0-9a-fA-F_]+|0b[01_]+|0o[0-7_]+|[0-9][0-9_]*").match(text, i)
            lit = m.group(0).replace("_", "")
            try:
                v = int(lit, 0) if lit[:2] in ("0x", "0b", "0o") else int(lit)
                yield ("int", v)
            except ValueError:
                pass
            i = m.end()
            # skip a type suffix / the rest of a float
            while i < n and (text[i].isalnum() or text[i] == "_"):
                i += 1
            continue
        if c.isalpha() or c == "_":
            # identifiers and keywords (literal prefixes b / r / br were recognised above); digits inside names are skipped
            i = re.compile(r"[A-Za-z0-9_]+").match(text, i).end()
            continue
        i += 1


def harvest(repo):
    toks, ints = set(), set()
    for p in source_files(repo):
        try:
            text = open(p, encoding="utf-8", errors="replace").read()
        except OSError:
            continue
        for kind, v in lex(text):
            if kind == "int":
                ints.add(v)
                if v > 255:
                    b = v.to_bytes((v.bit_length() + 7) // 8, "little")
                    if all(0x21 <= x <= 0x7e for x in b) and len(b) <= 8:
                        toks.add(b)       # the little-endian packed form the macros and the tables use
                continue
            if not v:
                continue
            if len(v) <= 24:
                toks.add(v)
            for piece in re.split(rb"[-_\s{}:,;()\[\]]+", v):
                if 0 < len(piece) <= 12:
                    toks.add(piece)
    return toks, ints


def load_baseline():
    try:
        b = json.load(open(BASELINE))
        return set(bytes.fromhex(x) for x in b["tokens"]), set(b["ints"])
    except (OSError, ValueError, KeyError):
        return None


def dictionary(repo):
    """(new tokens, new integers): literals of the current sources that the baseline tree did not have"""
    base = load_baseline()
    if base is None:
        return [], []
    toks, ints = harvest(repo)
    bt, bi = base
    # case variants of baseline tokens are no news either
    low = set(t.lower() for t in bt)
    new = sorted((t for t in toks if t not in bt and t.lower() not in low), key=lambda t: (len(t), t))
    new_ints = sorted(i for i in ints if i not in bi)
    return new[:MAX_TOKENS], [i for i in new_ints if 9 <= i <= 4096][:MAX_INTS]


def write_dict_file(repo, path):
    toks, ints = dictionary(repo)
    with open(path, "w") as f:
        for t in toks:
            f.write("t " + t.hex() + "\n")
        for i in ints:
            f.write("n %d\n" % i)
    return toks, ints


if __name__ == "__main__":
    args = [a for a in sys.argv[1:] if not a.startswith("--")]
    repo = args[0] if args else "/repo"
    if "--write-baseline" in sys.argv:
        toks, ints = harvest(repo)
        json.dump({"tokens": sorted(t.hex() for t in toks), "ints": sorted(ints),
                   "shown": sorted(repr(t)[1:] for t in toks)}, open(BASELINE, "w"), indent=1)
        print("baseline: %d tokens, %d integers" % (len(toks), len(ints)))
    else:
        toks, ints = dictionary(repo)
        print(json.dumps({"tokens": [repr(t)[1:] for t in toks], "ints": ints}))
