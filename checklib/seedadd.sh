#!/bin/bash
# development helper: confirm the changes a sub-agent left in /tmp/wt5-<P>/OUT/{1,2} and store them as seeded/<P>-m<next>
P=$1
WT=${2:-/tmp/wt5-$P}
cd "$(dirname "$0")/.."
for k in 1 2 3; do
  [ -f $WT/OUT/$k/patch.diff ] || continue
  n=1; while [ -e seeded/$P-m$n ]; do n=$((n+1)); done
  echo "== $P k=$k -> $P-m$n"
  python3 checklib/seedverify.py $WT $k $P-m$n > /tmp/seedverify.$P.$k.log 2>&1
  echo "   rc=$? $(grep -E '"confirmed"' /tmp/seedverify.$P.$k.log)"
done
