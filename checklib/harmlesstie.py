# development tool (not a registered check): what each harmless refactoring does to the source tie (srctie.py on a scratch worktree /tmp/cfgscratch)
import subprocess, json, os
W='/tmp/cfgscratch'
out={}
for i in range(9,30):
    h='H%02d'%i
    subprocess.run('git checkout -q -- . && git clean -fdq -e target',shell=True,cwd=W)
    r=subprocess.run(['git','apply','/verif/seeded/harmless/%s/patch.diff'%h],cwd=W,capture_output=True,text=True)
    if r.returncode: out[h]='patch fails'; continue
    r=subprocess.run(['python3','/verif/checklib/srctie.py',W,'/verif'],capture_output=True,text=True)
    j=json.loads(r.stdout)
    bad={k:v['status'] for k,v in j['functions'].items() if v['status']!='proved'}
    out[h]={'lost': bad, 'first_reason': next((v['reason'][:160] for k,v in j['functions'].items() if v['status']!='proved'), '')}
    print(h, len(bad), sorted(set(bad.values())), out[h]['first_reason'][:140], flush=True)
subprocess.run('git checkout -q -- . && git clean -fdq -e target',shell=True,cwd=W)
json.dump(out,open('/tmp/r7/htie.json','w'),indent=1)
