"""Infrastructure of ./check: builds, translators, audit, sharded correspondence runs, failure protocol,
evidence."""
import fcntl, glob, hashlib, json, os, re, shutil, subprocess, sys, time

ROOT = os.path.dirname(os.path.dirname(os.path.abspath(__file__)))
REPO = os.environ.get("VERIF_REPO", "/repo")          # development-only override (rehearsals)
BUILD = os.path.join(ROOT, ".build")
LEAN = os.path.join(ROOT, "lean")
HARNESS_SRC = os.path.join(ROOT, "harness")
DRIVER = os.path.join(LEAN, ".lake", "build", "bin", "driver")
NPROC = min(16, os.cpu_count() or 4)
ALLOWED_AXIOMS = {"propext", "Classical.choice", "Quot.sound"}
ENV = dict(os.environ, CARGO_NET_OFFLINE="true")

TRUSTED_BASE = [
    "Lean 4.33.0 kernel (thorough tier re-checks the .olean files with leanchecker)",
    "axioms permitted in any property theorem: propext, Classical.choice, Quot.sound (audited per theorem on every run); "
    "no native_decide, no bv_decide, no own axioms, no sorry",
    "the hand-written Lean model of the Rust code (lean/UnicLocale/Model), tied to /repo by the correspondence "
    "streams of this run (differential testing: bounded by the generators, whose distribution is printed here)",
    "source tie (where the evidence lists one): the translator srclean (syn-based, /verif/srclean) and its mapping of library calls "
    "(README there); each translated function is proved equal to the model definition for all inputs (UL.SrcTie.*_eq)",
    "the specifications in lean/UnicLocale/Spec as the reading of the property statement",
    "translators: cfg-guarded re-export + `ulharness dump-tables` + gen/tables2lean.py (compiled tables), "
    "gen/cldr2lean.py (CLDR JSON; cross-checked on every run by an independent reader written in Lean, "
    "lean/UnicLocale/CldrCheck.lean: Lean.Json, own subtag classification and packing)",
    "modelled by contract, not verified: tinystr byte predicates and case maps, std sort_unstable/dedup/BTreeMap/"
    "Vec::insert/remove/slice::split/Peekable, derived PartialEq/Ord/Hash, fmt plumbing",
]


def log(*a):
    print(*a, file=sys.stderr, flush=True)


def sh(cmd, **kw):
    kw.setdefault("env", ENV)
    return subprocess.run(cmd, stdout=subprocess.PIPE, stderr=subprocess.STDOUT, text=True, **kw)


class Lock:
    def __enter__(self):
        os.makedirs(BUILD, exist_ok=True)
        self.f = open(os.path.join(BUILD, "lock"), "w")
        fcntl.flock(self.f, fcntl.LOCK_EX)
        return self

    def __exit__(self, *a):
        fcntl.flock(self.f, fcntl.LOCK_UN)
        self.f.close()


# ------------------------------------------------------------------------------------------------
# builds and translators

def harness_path(features):
    tag = "-".join(sorted(features)) or "none"
    return os.path.join(BUILD, "cargo-" + tag, "release", "ulharness")


def build_harness(features=("likely", "serde", "macros")):
    """cargo build the harness against REPO's working tree with the hook cfg on."""
    tag = "-".join(sorted(features)) or "none"
    target = os.path.join(BUILD, "cargo-" + tag)
    src = HARNESS_SRC
    if REPO != "/repo":
        # rehearsal on a scratch copy: a harness copy whose path deps point at the copy
        src = os.path.join(BUILD, "harness-" + hashlib.sha1(REPO.encode()).hexdigest()[:8])
        if os.path.exists(src):
            shutil.rmtree(src)
        shutil.copytree(HARNESS_SRC, src)
        p = os.path.join(src, "Cargo.toml")
        txt = open(p).read().replace('path = "/repo/', 'path = "%s/' % REPO)
        open(p, "w").write(txt)
        target = os.path.join(BUILD, "cargo-rehearsal-" + tag)
    cmd = ["cargo", "build", "--release", "--offline", "--no-default-features"]
    if features:
        cmd += ["--features", ",".join(features)]
    r = sh(cmd, cwd=src, env=dict(ENV, CARGO_TARGET_DIR=target))
    exe = os.path.join(target, "release", "ulharness")
    if r.returncode != 0 or not os.path.exists(exe):
        return None, r.stdout
    return exe, r.stdout


def write_if_changed(path, text):
    if os.path.exists(path) and open(path).read() == text:
        return False
    os.makedirs(os.path.dirname(path), exist_ok=True)
    open(path, "w").write(text)
    return True


def regen(harness):
    """Gen/Tables.lean from the compiled statics, Gen/Cldr.lean from the JSON.  Returns error or None."""
    r = subprocess.run([harness, "dump-tables"], stdout=subprocess.PIPE, stderr=subprocess.PIPE, text=True)
    if r.returncode != 0:
        return "dump-tables failed: " + r.stderr
    t = subprocess.run([sys.executable, os.path.join(ROOT, "gen", "tables2lean.py")], input=r.stdout,
                       stdout=subprocess.PIPE, stderr=subprocess.PIPE, text=True)
    if t.returncode != 0:
        return "tables2lean failed: " + t.stderr
    write_if_changed(os.path.join(LEAN, "UnicLocale", "Gen", "Tables.lean"), t.stdout)
    c = subprocess.run([sys.executable, os.path.join(ROOT, "gen", "cldr2lean.py"),
                        os.path.join(REPO, "unic-langid-impl"), os.path.join(BUILD, "layout_names.txt")],
                       stdout=subprocess.PIPE, stderr=subprocess.PIPE, text=True)
    if c.returncode != 0:
        return "cldr2lean failed: " + c.stderr
    write_if_changed(os.path.join(LEAN, "UnicLocale", "Gen", "Cldr.lean"), c.stdout)
    return None


def lake_build(targets):
    r = sh(["lake", "build"] + targets, cwd=LEAN)
    return r.returncode == 0, r.stdout


AUDIT_TEMPLATE = """import UnicLocale.Props.%(pid)s
import UnicLocale.Audit
#audit_ns UL.Props.%(pid)s
"""


def audit(pid):
    """Lists every theorem of UL.Props.<pid> with the axioms it depends on."""
    path = os.path.join(BUILD, "audit_%s.lean" % pid)
    open(path, "w").write(AUDIT_TEMPLATE % {"pid": pid})
    r = sh(["lake", "env", "lean", path], cwd=LEAN)
    thms = []
    for line in r.stdout.splitlines():
        m = re.match(r"^AUDIT (\S+) \[(.*)\]$", line)
        if m:
            ax = [a for a in m.group(2).split(",") if a]
            thms.append((m.group(1), ax))
    return thms, r.stdout, r.returncode


def audit_module(module, ns):
    """the theorems of namespace `ns` (defined in lean module `module`) with their axioms"""
    path = os.path.join(BUILD, "audit_%s.lean" % ns.replace(".", "_"))
    open(path, "w").write("import %s\nimport UnicLocale.Audit\n#audit_ns %s\n" % (module, ns))
    r = sh(["lake", "env", "lean", path], cwd=LEAN)
    thms = []
    for line in r.stdout.splitlines():
        m = re.match(r"^AUDIT (\S+) \[(.*)\]$", line)
        if m:
            thms.append((m.group(1), [a for a in m.group(2).split(",") if a]))
    return thms, r.returncode


FORBIDDEN = re.compile(r"sorry|admit|^axiom |native_decide|bv_decide|implemented_by|unsafe |maxHeartbeats 0")


def grep_forbidden():
    hits = []
    for p in glob.glob(os.path.join(LEAN, "UnicLocale", "**", "*.lean"), recursive=True) + [os.path.join(LEAN, "Main.lean")]:
        if os.sep + "Gen" + os.sep in p:
            continue
        in_block = 0
        for i, line in enumerate(open(p, encoding="utf-8"), 1):
            code = line
            # strip comments (block comments tracked coarsely, line comments exactly)
            if in_block:
                if "-/" in code:
                    in_block = 0
                    code = code.split("-/", 1)[1]
                else:
                    continue
            if "/-" in code:
                before, rest = code.split("/-", 1)
                if "-/" in rest:
                    code = before + rest.split("-/", 1)[1]
                else:
                    in_block = 1
                    code = before
            code = code.split("--", 1)[0]
            if FORBIDDEN.search(code):
                hits.append("%s:%d: %s" % (os.path.relpath(p, ROOT), i, line.strip()))
    return hits


# ------------------------------------------------------------------------------------------------
# correspondence runs

def run_proc_on_file(exe, inp, outp, timeout):
    with open(inp, "rb") as fi, open(outp, "wb") as fo:
        p = subprocess.Popen([exe, "serve"] if exe != DRIVER else [exe], stdin=fi, stdout=fo, stderr=subprocess.DEVNULL)
    return p


def answer_lines_patient(exe, lines, timeout=180):
    """the same with a 30 s per-request watchdog: used to re-ask a request that was answered `timeout` / `died` / `skipped` in a
    loaded run (a request that really hangs or aborts does so again)"""
    old = os.environ.get("ULH_TIMEOUT_MS")
    os.environ["ULH_TIMEOUT_MS"] = "30000"
    try:
        return answer_lines(exe, lines, timeout=timeout)
    finally:
        if old is None:
            os.environ.pop("ULH_TIMEOUT_MS", None)
        else:
            os.environ["ULH_TIMEOUT_MS"] = old


def answer_lines(exe, lines, timeout=120):
    """Runs one process on a small list of request lines (used by shrinking / replay)."""
    if exe != DRIVER:
        return serve_with_restarts(exe, list(lines), timeout)[0]
    cmd = [exe]
    try:
        r = subprocess.run(cmd, input="".join(l + "\n" for l in lines), stdout=subprocess.PIPE,
                           stderr=subprocess.DEVNULL, text=True, timeout=timeout)
    except subprocess.TimeoutExpired:
        return None
    out = r.stdout.split("\n")
    if out and out[-1] == "":
        out.pop()
    if len(out) != len(lines):
        return None  # the process died
    return out


def serve_with_restarts(harness, lines, timeout):
    """Answers `lines` with the harness.  The harness has a per-request watchdog (it prints `timeout` and exits) and may
    die on a request (abort, stack overflow): in both cases the offending request is recorded, answered `timeout` /
    `died`, and the harness is restarted on the remaining requests.  Returns (answers, problems)."""
    problems = []
    answers = []
    done = 0
    restarts = 0
    deadline = time.time() + timeout
    while done < len(lines):
        try:
            p = subprocess.run([harness, "serve"], input="".join(l + "\n" for l in lines[done:]), stdout=subprocess.PIPE,
                               stderr=subprocess.DEVNULL, text=True, timeout=max(5, deadline - time.time()))
            out = p.stdout.split("\n")
            rc = p.returncode
        except subprocess.TimeoutExpired as e:
            out = (e.stdout.decode() if isinstance(e.stdout, bytes) else (e.stdout or "")).split("\n")
            rc = -9
        complete = out[:-1]          # what follows the last newline is a partial line (or empty)
        if rc == 0 and len(complete) >= len(lines) - done:
            answers.extend(complete[:len(lines) - done])
            done = len(lines)
            break
        if complete and complete[-1] == "timeout":
            culprit = done + len(complete) - 1
            what = "no answer within the watchdog limit (hang)"
            answers.extend(complete)
        else:
            culprit = done + len(complete)
            what = "the process died (exit status %d)" % rc
            answers.extend(complete)
            if culprit < len(lines):
                answers.append("died")
        if culprit >= len(lines):
            break
        problems.append(("impl", lines[culprit], what))
        done = culprit + 1
        restarts += 1
        if restarts > 3 or time.time() > deadline:
            answers.extend(["skipped"] * (len(lines) - done))
            log("  harness restarted %d times on one shard; the remaining %d requests of the shard are skipped" % (restarts, len(lines) - done))
            break
    answers = (answers + ["skipped"] * len(lines))[:len(lines)]
    return answers, problems


def run_impl_shard(harness, shard, outp, timeout):
    lines = open(shard).read().split("\n")
    if lines and lines[-1] == "":
        lines.pop()
    answers, problems = serve_with_restarts(harness, lines, timeout)
    with open(outp, "w") as fo:
        fo.write("".join(a + "\n" for a in answers))
    return problems


def run_sharded(harness, req_path, workdir, timeout):
    """Splits the request file into NPROC shards and runs harness and driver on each in parallel.
    Returns (shards, problems) with problems = [(side, request line or shard, what)]."""
    import concurrent.futures
    n = NPROC
    base = os.path.join(workdir, os.path.basename(req_path) + ".sh.")
    for f in glob.glob(base + "*"):
        os.remove(f)
    subprocess.check_call(["split", "-n", "l/%d" % n, "-d", "-a", "2", req_path, base])
    shards = sorted(glob.glob(base + "[0-9][0-9]"))
    procs = []
    for s in shards:
        fi = open(s, "rb")
        fo = open(s + ".model", "wb")
        p = subprocess.Popen([DRIVER], stdin=fi, stdout=fo, stderr=subprocess.DEVNULL)
        procs.append((p, s, fi, fo))
    problems = []
    with concurrent.futures.ThreadPoolExecutor(max_workers=len(shards) or 1) as ex:
        futs = [ex.submit(run_impl_shard, harness, s, s + ".impl", timeout) for s in shards]
        for f in futs:
            problems.extend(f.result())
    deadline = time.time() + timeout
    for p, s, fi, fo in procs:
        try:
            rc = p.wait(timeout=max(1, deadline - time.time()))
            if rc != 0:
                problems.append(("model", s, "exit status %d" % rc))
        except subprocess.TimeoutExpired:
            p.kill()
            p.wait()
            problems.append(("model", s, "timeout"))
        fi.close()
        fo.close()
    return shards, problems


def iter_results(shards, window=None):
    """yields (request, implementation answer, model answer); `window` (a deque) holds the requests the same harness
    process answered just before the current one"""
    for s in shards:
        if window is not None:
            window.clear()
        with open(s) as fr, open(s + ".impl") as fi, open(s + ".model") as fm:
            prev = None
            for rq in fr:
                if window is not None and prev is not None:
                    window.append(prev)
                prev = rq.rstrip("\n")
                im = fi.readline()
                mo = fm.readline()
                if not im.endswith("\n") or not mo.endswith("\n"):
                    yield rq.rstrip("\n"), (im.rstrip("\n") if im.endswith("\n") else None), (mo.rstrip("\n") if mo.endswith("\n") else None)
                    if not im.endswith("\n"):
                        return
                    continue
                yield rq.rstrip("\n"), im[:-1], mo[:-1]


def locate_hang_or_crash(exe, shard, timeout=20):
    """Finds the first request of a shard on which the process does not answer (hang / abort)."""
    lines = open(shard).read().split("\n")
    if lines and lines[-1] == "":
        lines.pop()
    lo, hi = 0, len(lines)  # invariant: the prefix [0, lo) is fine
    # answered count from a full run gives the first suspect quickly
    while hi - lo > 1:
        mid = (lo + hi) // 2
        if answer_lines(exe, lines[lo:mid], timeout=timeout) is None:
            hi = mid
        else:
            lo = mid
    return lines[lo] if lo < len(lines) else None


# ------------------------------------------------------------------------------------------------
# request helpers

def unhex(s):
    return b"" if s == "_" else bytes.fromhex(s)


def hexs(b):
    return "_" if not b else b.hex()


def show_req(req):
    """human-readable form of a request line"""
    out = []
    for i, f in enumerate(req.split(" ")):
        if i == 0:
            out.append(f)
            continue
        try:
            if ":" in f or "," in f:
                out.append(":".join(",".join(repr(unhex(x))[1:] if re.fullmatch(r"([0-9a-f]{2})+|_", x) else x
                                             for x in part.split(",")) for part in f.split(":")))
            elif re.fullmatch(r"([0-9a-f]{2})+|_", f):
                out.append(repr(unhex(f))[1:])
            else:
                out.append(f)
        except Exception:
            out.append(f)
    return " ".join(out)


def shrink_candidates(req):
    """token-level and byte-level reductions of the hex arguments of a request line"""
    f = req.split(" ")
    cands = []
    if f[0] in ("pair", "extpair", "lipair"):
        return []       # the two arguments are related by construction; independent reductions would break the relation
    if f[0] == "hist":
        # drop one op; simplify nothing else
        for i in range(2, len(f)):
            cands.append(" ".join(f[:i] + f[i + 1:]))
        return cands
    for ai in range(1, len(f)):
        a = f[ai]
        if not re.fullmatch(r"([0-9a-f]{2})+", a):
            continue
        b = unhex(a)
        toks = re.split(rb"([-_])", b)
        # drop a token together with one adjacent separator
        for ti in range(0, len(toks), 2):
            if len(toks) == 1:
                break
            nt = toks[:ti] + toks[ti + 2:] if ti + 1 < len(toks) else toks[:ti - 1]
            cands.append(" ".join(f[:ai] + [hexs(b"".join(nt))] + f[ai + 1:]))
        # drop a byte
        if len(b) <= 40:
            for bi in range(len(b)):
                cands.append(" ".join(f[:ai] + [hexs(b[:bi] + b[bi + 1:])] + f[ai + 1:]))
    return cands


def shrink(req, still_bad, limit=200):
    """greedy delta debugging: `still_bad(list of reqs) -> list of bools`"""
    cur = req
    for _ in range(limit):
        cands = [c for c in shrink_candidates(cur) if c != cur]
        if not cands:
            break
        flags = still_bad(cands)
        nxt = None
        for c, fl in zip(cands, flags):
            if fl and (nxt is None or len(c) < len(nxt)):
                nxt = c
        if nxt is None:
            break
        cur = nxt
    return cur


# ------------------------------------------------------------------------------------------------

def load_known():
    p = os.path.join(ROOT, "known_findings.json")
    if not os.path.exists(p):
        return []
    return json.load(open(p)).get("findings", [])


def write_replay(pid, payload):
    os.makedirs(os.path.join(ROOT, "replays"), exist_ok=True)
    h = hashlib.sha1(json.dumps(payload, sort_keys=True).encode()).hexdigest()[:12]
    path = os.path.join("replays", "%s-%s.json" % (pid, h))
    json.dump(payload, open(os.path.join(ROOT, path), "w"), indent=1, sort_keys=True)
    return path


def write_evidence(pid, ev):
    os.makedirs(os.path.join(ROOT, "evidence"), exist_ok=True)
    json.dump(ev, open(os.path.join(ROOT, "evidence", pid + ".json"), "w"), indent=1, sort_keys=True)


def main(argv):
    import props
    if not argv:
        print(__doc__)
        return 2
    if argv[0] == "setup":
        return props.setup()
    if argv[0] == "replay":
        return props.replay(argv[1])
    pid = argv[0]
    tier = os.environ.get("VERIF_TIER", "quick")
    if "--tier" in argv:
        tier = argv[argv.index("--tier") + 1]
    seed = int(os.environ.get("VERIF_SEED", "0"))
    return props.check(pid, tier, seed)
