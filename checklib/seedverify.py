#!/usr/bin/env python3
"""Development tool: independently confirms a seeded breaking change produced in a scratch worktree and, if everything
holds, stores it under /verif/seeded/<id>/.

    python3 checklib/seedverify.py <worktree> <k> <seed-id>

Confirms, in the scratch worktree (never in /repo): (1) on the clean tree the demonstration passes; (2) with the patch
applied the workspace builds (also with all features), the existing test suite passes unchanged, and the demonstration
FAILS.  The demonstration is the one described in OUT/<k>/demo.md (`cp OUT/<k>/demo.rs <crate>/tests/<name>.rs` +
`cargo test ... --test <name>`).
"""
import json, os, re, shutil, subprocess, sys

ROOT = os.path.dirname(os.path.dirname(os.path.abspath(__file__)))
ENV = dict(os.environ, CARGO_NET_OFFLINE="true")


def sh(cmd, cwd):
    r = subprocess.run(cmd, shell=True, cwd=cwd, stdout=subprocess.PIPE, stderr=subprocess.STDOUT, text=True, env=ENV)
    return r.returncode, r.stdout


def main():
    wt, k, sid = sys.argv[1], sys.argv[2], sys.argv[3]
    out = os.path.join(wt, "OUT", k)
    md = open(os.path.join(out, "demo.md")).read()
    cp = re.search(r"^\s*cp (OUT/%s/\S+) (\S+/tests/\S+\.rs)\s*$" % k, md, re.M)
    cts = re.findall(r"^\s*(cargo test [^\n#;&]*--test [^\n#;&]*)", md, re.M)
    feat = [c for c in cts if "--features" in c]
    ct = (feat or cts or [None])[0]
    if not cp or not ct:
        print("cannot find the cp / cargo test lines in demo.md")
        return 2
    src, dst = cp.group(1), cp.group(2)
    cmd = ct.strip()
    if "--offline" not in cmd:
        cmd = cmd.replace("cargo test", "cargo test --offline")
    res = {"demo_cmd": cmd, "demo_file": dst}
    sh("git checkout -- . && rm -f %s" % dst, wt)
    rc, o = sh("git status --porcelain --untracked-files=no", wt)
    if o.strip():
        print("worktree not clean")
        return 2
    shutil.copy(os.path.join(wt, src), os.path.join(wt, dst))
    rc, o = sh(cmd, wt)
    res["clean_demo_rc"] = rc
    os.remove(os.path.join(wt, dst))
    rc, o = sh("git apply OUT/%s/patch.diff" % k, wt)
    if rc != 0:
        print("patch does not apply:", o)
        return 2
    try:
        rc, o = sh("cargo build --workspace --all-features --offline", wt)
        res["mutant_build_all_features_rc"] = rc
        rc, o = sh("cargo test --workspace --no-fail-fast --offline", wt)
        res["mutant_baseline_tests_rc"] = rc
        m = re.findall(r"test result: (\w+)\. (\d+) passed; (\d+) failed", o)
        res["mutant_baseline_passed"] = sum(int(x[1]) for x in m)
        res["mutant_baseline_failed"] = sum(int(x[2]) for x in m)
        shutil.copy(os.path.join(wt, src), os.path.join(wt, dst))
        rc, o = sh(cmd, wt)
        res["mutant_demo_rc"] = rc
        res["mutant_demo_tail"] = o.strip().splitlines()[-12:]
    finally:
        sh("rm -f %s; git checkout -- ." % dst, wt)
    ok = (res["clean_demo_rc"] == 0 and res["mutant_build_all_features_rc"] == 0 and res["mutant_baseline_tests_rc"] == 0
          and res["mutant_baseline_failed"] == 0 and res["mutant_demo_rc"] != 0)
    res["confirmed"] = ok
    print(json.dumps(res, indent=1))
    if ok:
        d = os.path.join(ROOT, "seeded", sid)
        os.makedirs(d, exist_ok=True)
        for f in os.listdir(out):
            if os.path.isfile(os.path.join(out, f)):
                shutil.copy(os.path.join(out, f), os.path.join(d, f))
        meta = json.load(open(os.path.join(d, "meta.json")))
        meta["confirmed_by_me"] = res
        meta["what_i_ran"] = ["clean worktree: " + cmd + " (passes)", "git apply patch.diff",
                              "cargo build --workspace --all-features --offline (ok)",
                              "cargo test --workspace --no-fail-fast --offline (%d passed, 0 failed)" % res["mutant_baseline_passed"],
                              cmd + " (fails)"]
        json.dump(meta, open(os.path.join(d, "meta.json"), "w"), indent=1)
    return 0 if ok else 1


if __name__ == "__main__":
    sys.exit(main())
