#!/usr/bin/env python3
"""Development tool (not a registered check): runs checks against a seeded breaking change.

    python3 checklib/seedrun.py <seeded dir or patch.diff> [--props C03,C05 | --all] [--tier quick]

Applies the patch to /repo (`git -C /repo apply`), runs the named checks (default: the property named in
meta.json), prints each check's exit status and VIOLATION lines, and ALWAYS undoes the patch
(`git -C /repo checkout -- .`) and restores the committed evidence files afterwards.
"""
import json, os, subprocess, sys

ROOT = os.path.dirname(os.path.dirname(os.path.abspath(__file__)))
REPO = os.environ.get("VERIF_REPO", "/repo")   # a scratch copy when set (then /repo is never touched)


def main():
    args = sys.argv[1:]
    target = args[0]
    patch = target if target.endswith(".diff") else os.path.join(target, "patch.diff")
    meta = {}
    mp = os.path.join(os.path.dirname(patch), "meta.json")
    if os.path.exists(mp):
        meta = json.load(open(mp))
    props = [meta.get("property")] if meta.get("property") else []
    tier = "quick"
    if "--props" in args:
        props = args[args.index("--props") + 1].split(",")
    if "--tier" in args:
        tier = args[args.index("--tier") + 1]
    if "--all" in args:
        sys.path.insert(0, os.path.join(ROOT, "checklib"))
        import props as P
        props = sorted(P.CLAIMED)
    st = subprocess.run(["git", "-C", REPO, "status", "--porcelain", "--untracked-files=no"], capture_output=True, text=True).stdout
    if st.strip():
        print("refusing: /repo has uncommitted changes:\n" + st)
        return 2
    r = subprocess.run(["git", "-C", REPO, "apply", os.path.abspath(patch)], capture_output=True, text=True)
    if r.returncode != 0:
        print("patch does not apply: " + r.stderr)
        return 2
    results = {}
    try:
        for p in props:
            r = subprocess.run([os.path.join(ROOT, "check"), p, "--tier", tier], capture_output=True, text=True, cwd=ROOT)
            vio = [l for l in r.stdout.splitlines() if l.startswith(("VIOLATION", "KNOWN-FINDING", "BUILD-FAILED"))]
            tail = r.stderr.strip().splitlines()[-6:]
            results[p] = {"rc": r.returncode, "lines": vio, "stderr_tail": tail}
            print("== %s rc=%d" % (p, r.returncode))
            for l in vio:
                print("   " + l[:300])
            for l in tail:
                print("   | " + l[:300])
            sys.stdout.flush()
    finally:
        subprocess.run(["git", "-C", REPO, "checkout", "--", "."])
        subprocess.run(["git", "-C", REPO, "clean", "-fdq", "-e", "target"])     # files the patch added
        subprocess.run(["git", "-C", ROOT, "checkout", "--", "evidence"])
    caught = [p for p, v in results.items() if v["rc"] == 1]
    print("CAUGHT-BY: " + (",".join(caught) or "none"))
    return 0


if __name__ == "__main__":
    sys.exit(main())
