#!/usr/bin/env python3
"""Development tool (not a registered check): detection matrix of the registered checks over the seeded breaking
changes in /verif/seeded.

    VERIF_REPO=<scratch copy of /repo> python3 checklib/seedmatrix.py [--only C03-m1,C05-m2] [--all-props] [--out FILE]

Works on the scratch copy named by VERIF_REPO (never on /repo): for each seeded/<id>/patch.diff it applies the patch
there, runs the quick check of the property named in meta.json (with --all-props: every claimed property), records exit
status and VIOLATION lines, and reverts the copy (`git checkout -- .`).  Evidence files are restored afterwards.
Meant to be started with `vp run --with-repo -- sh -c './check setup && VERIF_REPO=$VP_RUN_REPO python3 checklib/seedmatrix.py'`.
"""
import json, os, subprocess, sys, time

ROOT = os.path.dirname(os.path.dirname(os.path.abspath(__file__)))


def main():
    args = sys.argv[1:]
    repo = os.environ.get("VERIF_REPO")
    if not repo or os.path.realpath(repo) == "/repo":
        print("set VERIF_REPO to a scratch copy of /repo")
        return 2
    only = None
    if "--only" in args:
        only = set(args[args.index("--only") + 1].split(","))
    out = os.path.join(ROOT, "seeded", "MATRIX.json")
    if "--out" in args:
        out = args[args.index("--out") + 1]
    allp = "--all-props" in args
    sys.path.insert(0, os.path.join(ROOT, "checklib"))
    import props as P
    base = os.path.join(ROOT, "seeded")
    harmless = "--harmless" in args
    if harmless:
        # behaviour-preserving rewrites: every claimed check must stay quiet
        base = os.path.join(ROOT, "seeded", "harmless")
        allp = True
        if "--out" not in args:
            out = os.path.join(ROOT, "seeded", "HARMLESS.json")
    ids = sorted(d for d in os.listdir(base) if os.path.exists(os.path.join(base, d, "patch.diff")))
    res = {}
    if os.path.exists(out):
        res = json.load(open(out))
    for sid in ids:
        if only and sid not in only:
            continue
        meta = json.load(open(os.path.join(base, sid, "meta.json")))
        patch = os.path.join(base, sid, "patch.diff")
        subprocess.run(["git", "-C", repo, "checkout", "--", "."], check=True)
        subprocess.run(["git", "-C", repo, "clean", "-fdq", "-e", "target"])      # files a previous patch added
        r = subprocess.run(["git", "-C", repo, "apply", patch], capture_output=True, text=True)
        if r.returncode != 0:
            res[sid] = {"error": "patch does not apply: " + r.stderr[-300:]}
            print(sid, "PATCH-FAILS", flush=True)
            continue
        props = sorted(P.CLAIMED) if allp else [meta["property"]]
        if "--props" in args:
            props = args[args.index("--props") + 1].split(",")
        entry = res.setdefault(sid, {"property": meta.get("property"), "checks": {}})
        try:
            for p in props:
                t0 = time.time()
                r = subprocess.run([os.path.join(ROOT, "check"), p, "--tier", "quick"], capture_output=True, text=True, cwd=ROOT)
                lines = [l for l in r.stdout.splitlines() if l.startswith(("VIOLATION", "KNOWN-FINDING", "BUILD-FAILED"))]
                why = [l.strip() for l in r.stderr.splitlines() if l.startswith("  ")][:6]
                replay = None
                for l in lines:
                    if l.startswith("VIOLATION") and "replay=" in l:
                        rp = l.split("replay=")[1].split(" ")[0]
                        try:
                            replay = json.load(open(os.path.join(ROOT, rp)))
                        except Exception:
                            pass
                        break
                entry["checks"][p] = {"rc": r.returncode, "lines": lines, "why": why, "wall_s": round(time.time() - t0),
                                      "replay": replay}
                print(sid, p, "rc=%d" % r.returncode, (lines[0][:120] if lines else ""), flush=True)
        finally:
            subprocess.run(["git", "-C", repo, "checkout", "--", "."])
            subprocess.run(["git", "-C", repo, "clean", "-fdq", "-e", "target"])
        entry["caught_by"] = sorted(p for p, v in entry["checks"].items() if v["rc"] != 0)
        json.dump(res, open(out, "w"), indent=1, sort_keys=True)
    subprocess.run(["git", "-C", ROOT, "checkout", "--", "evidence"])
    if harmless:
        print("FALSE-ALARMS:", ",".join("%s:%s" % (s, "+".join(v["caught_by"])) for s, v in res.items() if v.get("caught_by")) or "none")
    else:
        missed = [s for s, v in res.items() if not v.get("caught_by")]
        print("MISSED:", ",".join(missed) or "none")
    return 0


if __name__ == "__main__":
    sys.exit(main())
